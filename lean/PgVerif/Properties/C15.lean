/-!
# C15 — parsers are reusable and grammars are not corrupted by building parsers

Model of the mutable footprint of a parser instance and of a `Grammar` object
(`parglare/parser.py::Parser.parse`, `glr.py::GLRParser.parse`,
`tables/__init__.py::create_table`, `first`):
* per-parse fields of a parser (`errors`, `in_error_recovery`, the parse stack /
  active heads, accepted heads, error-reporting state) are assigned at the start
  of `parse` before anything reads them;
* `create_table` replaces the right-hand side of production 0 by
  `[start symbol, STOP]`, computes, and puts the old value back on every modelled
  exit (normal return, state-budget exception); the FIRST cache is written once
  and is a function of the grammar's productions other than production 0.
An operation history is any list of parses (of anything, with any outcome) and
builds (succeeding or failing, any start production); `C15_history_independent`:
the probe after any history equals the probe on fresh objects.
Exceptions thrown by user callbacks in the middle of a parse and module-level
state are outside the model and are exercised by the history harness.
-/
namespace Pg

/-- Per-parse mutable fields. -/
structure PFields where
  errors : List Nat
  inRecovery : Bool
  stack : List Nat
  accepted : List Nat
deriving DecidableEq, Repr, Inhabited

/-- Grammar-side mutable footprint. -/
structure GFields where
  prod0rhs : List Nat
  firstCache : Option Nat       -- a digest of the FIRST sets, once computed
deriving DecidableEq, Repr, Inhabited

/-- What a parse computes from freshly initialised fields. The driver is a
parameter: any function of (static configuration, input, initial fields). -/
def parseOp (driver : Nat → Nat → PFields → PFields × Nat) (static input : Nat) (_old : PFields) :
    PFields × Nat :=
  driver static input { errors := [], inRecovery := false, stack := [0], accepted := [] }

/-- `parse` overwrites every per-parse field before reading it: the result does
not depend on what earlier parses left behind. -/
theorem C15_parse_reinit (driver : Nat → Nat → PFields → PFields × Nat) (static input : Nat)
    (old1 old2 : PFields) :
    (parseOp driver static input old1).2 = (parseOp driver static input old2).2 := rfl

/-- `create_table`: swap production 0, compute (possibly failing), restore.
`firstOf` is the FIRST digest of the grammar (it does not depend on
production 0); `tableOf` the table for a given augmented production. -/
def buildOp (firstOf : Nat) (tableOf : List Nat → Nat → Option Nat) (startRhs : List Nat) (opts : Nat)
    (g : GFields) : GFields × Option Nat :=
  let g1 : GFields := { g with firstCache := some firstOf }          -- first(): cached on first use
  let old := g1.prod0rhs
  let g2 : GFields := { g1 with prod0rhs := startRhs }               -- swap
  let result := tableOf g2.prod0rhs opts                             -- may fail (none)
  ({ g2 with prod0rhs := old }, result)                              -- restore on every exit

/-- A build, whether it succeeds or fails and whatever start production it uses,
leaves production 0 as it found it, and the FIRST cache equal to the grammar's
FIRST digest. -/
theorem C15_build_restores (firstOf : Nat) (tableOf : List Nat → Nat → Option Nat) (startRhs : List Nat)
    (opts : Nat) (g : GFields) :
    (buildOp firstOf tableOf startRhs opts g).1.prod0rhs = g.prod0rhs ∧
    (buildOp firstOf tableOf startRhs opts g).1.firstCache = some firstOf := by
  simp [buildOp]

/-- The table a build returns depends only on the requested start production and
options, not on the grammar's mutable fields. -/
theorem C15_build_result_independent (firstOf : Nat) (tableOf : List Nat → Nat → Option Nat)
    (startRhs : List Nat) (opts : Nat) (g1 g2 : GFields) :
    (buildOp firstOf tableOf startRhs opts g1).2 = (buildOp firstOf tableOf startRhs opts g2).2 := rfl

inductive HOp where
  | parse (input : Nat)
  | build (startRhs : List Nat) (opts : Nat)
deriving Repr, Inhabited

structure World where
  p : PFields
  g : GFields
deriving DecidableEq, Repr, Inhabited

def applyH (driver : Nat → Nat → PFields → PFields × Nat) (firstOf : Nat)
    (tableOf : List Nat → Nat → Option Nat) (static : Nat) (w : World) : HOp → World
  | .parse x => { w with p := (parseOp driver static x w.p).1 }
  | .build r o => { w with g := (buildOp firstOf tableOf r o w.g).1 }

/-- **History independence.** After any history, a probe parse and a probe build
give what they give on fresh objects, and production 0 is what it was. -/
theorem C15_history_independent (driver : Nat → Nat → PFields → PFields × Nat) (firstOf : Nat)
    (tableOf : List Nat → Nat → Option Nat) (static : Nat) :
    ∀ (ops : List HOp) (w : World) (x : Nat) (r : List Nat) (o : Nat),
      let w' := ops.foldl (applyH driver firstOf tableOf static) w
      (parseOp driver static x w'.p).2 = (parseOp driver static x w.p).2 ∧
      (buildOp firstOf tableOf r o w'.g).2 = (buildOp firstOf tableOf r o w.g).2 ∧
      w'.g.prod0rhs = w.g.prod0rhs := by
  intro ops
  induction ops with
  | nil => intro w x r o; exact ⟨rfl, rfl, rfl⟩
  | cons op rest ih =>
    intro w x r o
    simp only [List.foldl_cons]
    obtain ⟨h1, h2, h3⟩ := ih (applyH driver firstOf tableOf static w op) x r o
    refine ⟨h1, h2, ?_⟩
    rw [h3]
    cases op with
    | parse i => rfl
    | build r' o' => simp [applyH, buildOp]

end Pg

import PgVerif.Model.TableGen
/-!
# C16 — tables are deterministic across processes and hash seeds

The model of table construction computes with canonical sets and lists; the only
place where the implementation's result passes through a hash-ordered container
on its way to the serialised table is the per-state action dict, whose insertion
order depends on set iteration and which `sort_state_actions` sorts. Proved here:
insertion into a sorted list keeps it sorted, the sort is a permutation of its
input, and — for any strict total order on the keys, as `act_order` is when FQNs
are unique (checked per grammar by the driver command `keysok`) — the sorted
result is the same for every permutation of the input (`C16_sort_perm_invariant`).
-/
namespace Pg

section
variable {α : Type} (lt : α → α → Bool)

def insertBy (x : α) : List α → List α
  | [] => [x]
  | y :: ys => if lt x y then x :: y :: ys else y :: insertBy x ys

def sortBy (l : List α) : List α := l.foldl (fun acc x => insertBy lt x acc) []

/-- Sortedness: each element is before (or equal-keyed to) every later one. -/
def SortedBy : List α → Prop
  | [] => True
  | x :: xs => (∀ y ∈ xs, lt y x = false) ∧ SortedBy xs

structure StrictTotal (S : α → Prop) : Prop where
  irrefl : ∀ x, S x → lt x x = false
  trans : ∀ x y z, S x → S y → S z → lt x y = true → lt y z = true → lt x z = true
  total : ∀ x y, S x → S y → x ≠ y → lt x y = true ∨ lt y x = true

theorem mem_insertBy (x : α) (l : List α) (z : α) : z ∈ insertBy lt x l ↔ z = x ∨ z ∈ l := by
  induction l with
  | nil => simp [insertBy]
  | cons y ys ih =>
    simp only [insertBy]
    split
    · simp
    · simp only [List.mem_cons, ih]
      constructor
      · rintro (h | h | h)
        · exact Or.inr (Or.inl h)
        · exact Or.inl h
        · exact Or.inr (Or.inr h)
      · rintro (h | h | h)
        · exact Or.inr (Or.inl h)
        · exact Or.inl h
        · exact Or.inr (Or.inr h)

theorem insertBy_sorted (S : α → Prop) (hst : StrictTotal lt S) (x : α) (hx : S x) :
    ∀ l : List α, (∀ y ∈ l, S y) → SortedBy lt l → SortedBy lt (insertBy lt x l) := by
  intro l
  induction l with
  | nil => intro _ _; simp [insertBy, SortedBy]
  | cons y ys ih =>
    intro hS hs
    simp only [insertBy]
    have hy := hS y (by simp)
    split
    · rename_i hxy
      refine ⟨?_, hs⟩
      intro z hz
      rcases List.mem_cons.mp hz with rfl | hz
      · -- lt y x = false since lt x y
        cases hyx : lt z x with
        | false => rfl
        | true =>
          have := hst.trans x z x hx hy hx hxy hyx
          rw [hst.irrefl x hx] at this; cases this
      · -- z after y, lt z y = false; want lt z x = false
        have hzy := hs.1 z hz
        cases hzx : lt z x with
        | false => rfl
        | true =>
          have := hst.trans z x y (hS z (by simp [hz])) hx hy hzx hxy
          rw [hzy] at this; cases this
    · rename_i hxy
      refine ⟨?_, ih (fun z hz => hS z (by simp [hz])) hs.2⟩
      intro z hz
      rcases (mem_insertBy lt x ys z).mp hz with rfl | hz
      · simpa using hxy
      · exact hs.1 z hz

theorem sortBy_aux_sorted (S : α → Prop) (hst : StrictTotal lt S) :
    ∀ (l acc : List α), (∀ y ∈ l, S y) → (∀ y ∈ acc, S y) → SortedBy lt acc →
      SortedBy lt (l.foldl (fun acc x => insertBy lt x acc) acc) ∧
      ∀ z, z ∈ l.foldl (fun acc x => insertBy lt x acc) acc ↔ z ∈ acc ∨ z ∈ l := by
  intro l
  induction l with
  | nil => intro acc _ _ hs; exact ⟨hs, by simp⟩
  | cons x xs ih =>
    intro acc hl hacc hs
    simp only [List.foldl_cons]
    have hx := hl x (by simp)
    obtain ⟨h1, h2⟩ := ih (insertBy lt x acc) (fun y hy => hl y (by simp [hy]))
      (by intro y hy; rcases (mem_insertBy lt x acc y).mp hy with rfl | h
          · exact hx
          · exact hacc y h)
      (insertBy_sorted lt S hst x hx acc hacc hs)
    refine ⟨h1, ?_⟩
    intro z
    rw [h2 z, mem_insertBy]
    simp only [List.mem_cons]
    constructor
    · rintro ((h | h) | h)
      · exact Or.inr (Or.inl h)
      · exact Or.inl h
      · exact Or.inr (Or.inr h)
    · rintro (h | h | h)
      · exact Or.inl (Or.inr h)
      · exact Or.inl (Or.inl h)
      · exact Or.inr h

theorem C16_sort_sorted (S : α → Prop) (hst : StrictTotal lt S) (l : List α) (hl : ∀ y ∈ l, S y) :
    SortedBy lt (sortBy lt l) :=
  (sortBy_aux_sorted lt S hst l [] hl (by simp) trivial).1

theorem C16_sort_perm (S : α → Prop) (hst : StrictTotal lt S) (l : List α) (hl : ∀ y ∈ l, S y) :
    ∀ z, z ∈ sortBy lt l ↔ z ∈ l := by
  intro z
  have := (sortBy_aux_sorted lt S hst l [] hl (by simp) trivial).2 z
  simpa [sortBy] using this

/-- Two sorted lists without duplicates and with the same elements are equal. -/
theorem sorted_ext (S : α → Prop) (hst : StrictTotal lt S) :
    ∀ (l1 l2 : List α), (∀ y ∈ l1, S y) → (∀ y ∈ l2, S y) → SortedBy lt l1 → SortedBy lt l2 →
      l1.Nodup → l2.Nodup → (∀ z, z ∈ l1 ↔ z ∈ l2) → l1 = l2 := by
  intro l1
  induction l1 with
  | nil =>
    intro l2 _ _ _ _ _ _ h
    cases l2 with
    | nil => rfl
    | cons y ys => exact absurd ((h y).mpr (by simp)) (by simp)
  | cons x xs ih =>
    intro l2 h1 h2 s1 s2 n1 n2 h
    cases l2 with
    | nil => exact absurd ((h x).mp (by simp)) (by simp)
    | cons y ys =>
      have hx := h1 x (by simp)
      have hy := h2 y (by simp)
      have hxy : x = y := by
        apply Classical.byContradiction
        intro hne
        have hxin : x ∈ ys := by
          rcases List.mem_cons.mp ((h x).mp (by simp)) with h' | h'
          · exact absurd h' hne
          · exact h'
        have hyin : y ∈ xs := by
          rcases List.mem_cons.mp ((h y).mpr (by simp)) with h' | h'
          · exact absurd h'.symm hne
          · exact h'
        have a := s2.1 x hxin     -- lt x y = false
        have b := s1.1 y hyin     -- lt y x = false
        rcases hst.total x y hx hy hne with t | t
        · rw [a] at t; cases t
        · rw [b] at t; cases t
      subst hxy
      congr 1
      apply ih ys (fun z hz => h1 z (by simp [hz])) (fun z hz => h2 z (by simp [hz])) s1.2 s2.2
        (List.nodup_cons.mp n1).2 (List.nodup_cons.mp n2).2
      intro z
      constructor
      · intro hz
        rcases List.mem_cons.mp ((h z).mp (by simp [hz])) with h' | h'
        · subst h'; exact absurd hz (List.nodup_cons.mp n1).1
        · exact h'
      · intro hz
        rcases List.mem_cons.mp ((h z).mpr (by simp [hz])) with h' | h'
        · subst h'; exact absurd hz (List.nodup_cons.mp n2).1
        · exact h'

theorem insertBy_nodup (x : α) : ∀ l : List α, x ∉ l → l.Nodup → (insertBy lt x l).Nodup := by
  intro l
  induction l with
  | nil => intro _ _; simp [insertBy]
  | cons y ys ih =>
    intro hx hn
    simp only [insertBy]
    split
    · exact List.nodup_cons.mpr ⟨hx, hn⟩
    · have hy := List.nodup_cons.mp hn
      refine List.nodup_cons.mpr ⟨?_, ih (fun h => hx (by simp [h])) hy.2⟩
      intro hmem
      rcases (mem_insertBy lt x ys y).mp hmem with h | h
      · exact hx (by simp [h])
      · exact hy.1 h

theorem sortBy_aux_nodup :
    ∀ (l acc : List α), (acc ++ l).Nodup → (l.foldl (fun acc x => insertBy lt x acc) acc).Nodup := by
  intro l
  induction l with
  | nil => intro acc h; simpa using h
  | cons x xs ih =>
    intro acc h
    simp only [List.foldl_cons]
    apply ih
    have h' : (acc ++ x :: xs).Nodup := h
    rw [List.nodup_append] at h' ⊢
    obtain ⟨ha, hxs, hdis⟩ := h'
    have hxs' := List.nodup_cons.mp hxs
    refine ⟨insertBy_nodup lt x acc (fun hx => hdis x hx x (by simp) rfl) ha, hxs'.2, ?_⟩
    intro a ha' b hb
    rcases (mem_insertBy lt x acc a).mp ha' with rfl | ha''
    · intro hab; subst hab; exact hxs'.1 hb
    · exact hdis a ha'' b (by simp [hb])

/-- **Permutation invariance.** Whatever order the dict was filled in, sorting
gives the same list. -/
theorem C16_sort_perm_invariant (S : α → Prop) (hst : StrictTotal lt S) (l1 l2 : List α)
    (h1 : ∀ y ∈ l1, S y) (h2 : ∀ y ∈ l2, S y) (n1 : l1.Nodup) (n2 : l2.Nodup)
    (h : ∀ z, z ∈ l1 ↔ z ∈ l2) : sortBy lt l1 = sortBy lt l2 := by
  apply sorted_ext lt S hst
  · intro y hy; exact h1 y ((C16_sort_perm lt S hst l1 h1 y).mp hy)
  · intro y hy; exact h2 y ((C16_sort_perm lt S hst l2 h2 y).mp hy)
  · exact C16_sort_sorted lt S hst l1 h1
  · exact C16_sort_sorted lt S hst l2 h2
  · exact sortBy_aux_nodup lt l1 [] (by simpa using n1)
  · exact sortBy_aux_nodup lt l2 [] (by simpa using n2)
  · intro z
    rw [C16_sort_perm lt S hst l1 h1 z, C16_sort_perm lt S hst l2 h2 z]
    exact h z

end

/-- The model's action sort is `sortBy` with the `act_order` comparison. -/
theorem sortActions_eq_sortBy (w1 w2 : Nat) (g : GGrammar) (acts : List (Nat × List Action)) :
    sortActions w1 w2 g acts =
      sortBy (fun x y => before w1 w2 (g.terms.getD x.1 default) (g.terms.getD y.1 default)) acts := by
  unfold sortActions sortBy
  congr 1
  funext acc x
  induction acc with
  | nil => rfl
  | cons y ys ih => simp only [insertSorted, insertBy, ih]

end Pg

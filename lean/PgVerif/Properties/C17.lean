import PgVerif.Proofs.NDSound
import PgVerif.Proofs.Chart
import PgVerif.Proofs.SPPF
import PgVerif.Proofs.GLRSound
/-!
# C17 — with consume_input off, results parse sentence prefixes

`C17_lr_prefix_sound`: for every well-formed table, input and recognizer
behaviour, whatever the LR driver model returns derives a prefix of the input
ending at a token boundary. `C17_path_prefix_sound`: the same for every path of
the nondeterministic automaton (every GSS path). `C17_prefix_oracle_correct`:
the oracle for "some prefix is a sentence". `C17_reference_prefix_sppf_exact`: the
reference SPPF over all sentence prefixes is exact. GLR's completeness over all
prefixes is compared with that reference on the explored scope.
-/
namespace Pg

theorem C17_lr_prefix_sound (g : Grammar) (T : Table) (inp : Input) (hw : T.wf g = true)
    (lexDis : Bool) (fuel : Nat) (t : Tree) (e p : Nat)
    (h : parseLR g T inp { consumeInput := false, lexDis := lexDis } fuel = .ok t e p) :
    IsPrefixParseOf g inp t := by
  obtain ⟨h1, _, _⟩ := run_sound hw _ fuel Config.init (Inv.init _) t e p h
  exact ⟨e, h1⟩

theorem C17_prefix_oracle_correct (g : Grammar) (inp : Input) (hin : InputOK inp) (fuel : Nat)
    (b : Bool) (h : isPrefixSentence g inp fuel = some b) :
    b = true ↔ ∃ t, IsPrefixParseOf g inp t :=
  isPrefixSentence_correct hin fuel b h

theorem C17_path_prefix_sound (g : Grammar) (T : Table) (inp : Input) (hw : T.wf g = true)
    (c : Config) (h : Reach g T inp c) (t : Tree) (e p : Nat)
    (hs : NStep g T inp c (.done (.ok t e p))) : IsPrefixParseOf g inp t := by
  obtain ⟨e', h1, _⟩ := nd_sound hw c h t e p hs
  exact ⟨e', h1⟩

/-- The reference SPPF of all sentence prefixes (`consume_input=False`) is exact. -/
theorem C17_reference_prefix_sppf_exact (g : Grammar) (inp : Input) (hin : InputOK inp) (fuel : Nat)
    (alts : List PAlt) (h : sppfAlts g inp fuel false = some alts) (a : PAlt) :
    a ∈ alts ↔ Useful g inp false (a.A, a.i, a.j) ∧ PackedAlt g inp a :=
  sppfAlts_correct hin fuel false alts h a

/-- The GLR driver model with `consume_input` off: whenever it answers with a forest, a prefix of the
input ending at a token boundary derives from the start symbol — for every well-formed table, input,
recognizer behaviour (layout skipping idempotent) and fuel. -/
theorem C17_glr_model_prefix_sound (g : Grammar) (T : Table) (inp : Input) (hw : T.wf g = true)
    (hidem : ∀ p, inp.skip (inp.skip p) = inp.skip p) (consume lexDis : Bool) (fuel : Nat) (sF : GLR.GState)
    (h : GLR.parseGLR g T inp consume lexDis fuel = .forest sF) : ∃ t, IsPrefixParseOf g inp t :=
  (GLR.parseGLR_sound hw hidem consume lexDis fuel sF h).1

/-- With `consume_input` off every tree of the model's packed forest derives a prefix of the input
ending at a token boundary. -/
theorem C17_glr_model_forest_prefix_sound (g : Grammar) (T : Table) (inp : Input) (hw : T.wf g = true)
    (hidem : ∀ p, inp.skip (inp.skip p) = inp.skip p) (consume lexDis : Bool) (fuel : Nat) (sF : GLR.GState)
    (h : GLR.parseGLR g T inp consume lexDis fuel = .forest sF)
    (a : Nat) (ha : a ∈ sF.accepted) (l : Nat) (hl : l ∈ sF.parents a) (t : Tree) (ht : GLR.TreeOf sF l t) :
    IsPrefixParseOf g inp t :=
  (GLR.parseGLR_forest_sound hw hidem consume lexDis fuel sF h a ha l hl t ht).1

/-- The executable form used on implementation trees: a tree that the driver finds in the packed
forest of the model's run with `consume_input` off derives a prefix of the input. -/
theorem C17_tree_found_in_glr_model_forest_is_prefix_parse (g : Grammar) (T : Table) (inp : Input)
    (hw : T.wf g = true) (hidem : ∀ p, inp.skip (inp.skip p) = inp.skip p) (consume lexDis : Bool) (fuel : Nat)
    (sF : GLR.GState) (h : GLR.parseGLR g T inp consume lexDis fuel = .forest sF) (t : Tree)
    (ht : GLR.forestHasTree sF t = true) : IsPrefixParseOf g inp t :=
  (GLR.forestHasTree_parse hw hidem consume lexDis fuel sF h t ht).1

end Pg

import PgVerif.Model.Table
/-!
# C18 — the dynamic disambiguation filter sees every marked decision and only those

Model of `Parser._dynamic_disambiguation` / `_call_dynamic_filter`
(`parglare/parser.py`): for the actions of the consulted cell, SHIFT actions
whose target state's symbol is not dynamic and REDUCE actions whose production
is not dynamic are kept without calling the filter; the others are kept iff the
filter accepts; ACCEPT is kept. The call trace records the actions the filter was
asked about. Proved for every cell, marking and filter.
-/
namespace Pg

structure DynEnv where
  dynState : Nat → Bool      -- `to_state.symbol.dynamic`
  dynProd  : Nat → Bool      -- `production.dynamic`

def DynEnv.isDynamic (env : DynEnv) : Action → Bool
  | .shift s => env.dynState s
  | .reduce p => env.dynProd p
  | .accept => false

/-- Returns (actions kept, filter calls in order). -/
def dynFilter (env : DynEnv) (accept : Action → Bool) : List Action → List Action × List Action
  | [] => ([], [])
  | a :: rest =>
    let r := dynFilter env accept rest
    if env.isDynamic a then
      (if accept a then a :: r.1 else r.1, a :: r.2)
    else (a :: r.1, r.2)

/-- The filter is only asked about marked decisions. -/
theorem C18_only_marked (env : DynEnv) (accept : Action → Bool) (acts : List Action) :
    ∀ a ∈ (dynFilter env accept acts).2, env.isDynamic a = true ∧ a ∈ acts := by
  induction acts with
  | nil => intro a h; simp [dynFilter] at h
  | cons x rest ih =>
    intro a h
    simp only [dynFilter] at h
    split at h
    · rename_i hd
      rcases List.mem_cons.mp h with rfl | h
      · exact ⟨hd, by simp⟩
      · exact ⟨(ih a h).1, by simp [(ih a h).2]⟩
    · exact ⟨(ih a h).1, by simp [(ih a h).2]⟩

/-- ... and about every marked decision of the cell. -/
theorem C18_every_marked (env : DynEnv) (accept : Action → Bool) (acts : List Action) :
    ∀ a ∈ acts, env.isDynamic a = true → a ∈ (dynFilter env accept acts).2 := by
  induction acts with
  | nil => intro a h; simp at h
  | cons x rest ih =>
    intro a h hd
    simp only [dynFilter]
    rcases List.mem_cons.mp h with rfl | h
    · simp [hd]
    · split
      · simp [ih a h hd]
      · exact ih a h hd

/-- A rejected action is not taken. -/
theorem C18_rejected_not_taken (env : DynEnv) (accept : Action → Bool) (acts : List Action) :
    ∀ a ∈ (dynFilter env accept acts).1, a ∈ acts ∧ (env.isDynamic a = true → accept a = true) := by
  induction acts with
  | nil => intro a h; simp [dynFilter] at h
  | cons x rest ih =>
    intro a h
    simp only [dynFilter] at h
    split at h
    · rename_i hd
      split at h
      · rename_i hacc
        rcases List.mem_cons.mp h with rfl | h
        · exact ⟨by simp, fun _ => hacc⟩
        · exact ⟨by simp [(ih a h).1], (ih a h).2⟩
      · exact ⟨by simp [(ih a h).1], (ih a h).2⟩
    · rename_i hd
      rcases List.mem_cons.mp h with rfl | h
      · exact ⟨by simp, fun hd' => absurd hd' hd⟩
      · exact ⟨by simp [(ih a h).1], (ih a h).2⟩

/-- An accepted (or unmarked) action is taken. -/
theorem C18_accepted_taken (env : DynEnv) (accept : Action → Bool) (acts : List Action) :
    ∀ a ∈ acts, (env.isDynamic a = false ∨ accept a = true) → a ∈ (dynFilter env accept acts).1 := by
  induction acts with
  | nil => intro a h; simp at h
  | cons x rest ih =>
    intro a h hok
    simp only [dynFilter]
    rcases List.mem_cons.mp h with rfl | h
    · split
      · rename_i hd
        rcases hok with h1 | h1
        · rw [hd] at h1; cases h1
        · simp [h1]
      · simp
    · split
      · split
        · simp [ih a h hok]
        · exact ih a h hok
      · simp [ih a h hok]

/-- A filter that accepts everything changes nothing. -/
theorem C18_accept_all_identity (env : DynEnv) (acts : List Action) :
    (dynFilter env (fun _ => true) acts).1 = acts := by
  induction acts with
  | nil => rfl
  | cons x rest ih => simp only [dynFilter]; split <;> simp [ih]

/-- Without marks the filter is never called and nothing changes. -/
theorem C18_unmarked_untouched (accept : Action → Bool) (acts : List Action) :
    dynFilter ⟨fun _ => false, fun _ => false⟩ accept acts = (acts, []) := by
  induction acts with
  | nil => rfl
  | cons x rest ih =>
    simp only [dynFilter]
    have : (DynEnv.isDynamic ⟨fun _ => false, fun _ => false⟩ x) = false := by cases x <;> rfl
    simp [this, ih]

example : dynFilter ⟨fun s => s == 3, fun p => p == 1⟩ (fun a => a != .reduce 1)
    [.shift 3, .reduce 1, .reduce 2] = ([.shift 3, .reduce 2], [.shift 3, .reduce 1]) := by decide

end Pg

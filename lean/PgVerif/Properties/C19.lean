import PgVerif.Generated.Source
/-!
# C19 — string terminals match their literal text

Model of `StringRecognizer.__call__` (`parglare/grammar.py`) on code-point
lists: the slice of the input at the position, of the text's length, equals the
text (both lower-cased under `ignore_case`). `C19_literal_match`: the recognizer
matches at `pos` iff the text occurs there literally (iff its lower-casing does,
under `ignore_case`). Model of the unescape chains of `act_str_term` and
`act_recognizer_str` as sequential replace-all passes with the (pattern,
replacement) pairs regenerated from the source: `C19_unescape_identity` — a text
without a backslash is left unchanged by every chain whose patterns all start
with a backslash, and the regenerated chains are such (`C19_chain_patterns`).
Texts with backslashes, dots, newlines, texts equal to symbol names and the
KEYWORD rewrite are compared against a literal reference scanner on the explored
texts; the deviations found there are recorded findings (DESIGN.md).
-/
namespace Pg

def lower (c : Nat) : Nat := if 65 ≤ c ∧ c ≤ 90 then c + 32 else c

/-- `StringRecognizer.__call__`. -/
def strMatch (ignoreCase : Bool) (text input : List Nat) (pos : Nat) : Bool :=
  let slice := (input.drop pos).take text.length
  if ignoreCase then slice.map lower == text.map lower else slice == text

/-- The text occurs literally at `pos`. -/
def OccursAt (text input : List Nat) (pos : Nat) : Prop :=
  ∃ pre post, input = pre ++ text ++ post ∧ pre.length = pos

theorem take_drop_eq_iff (text input : List Nat) (pos : Nat) (hp : pos ≤ input.length) :
    (input.drop pos).take text.length = text ↔ OccursAt text input pos := by
  constructor
  · intro h
    refine ⟨input.take pos, (input.drop pos).drop text.length, ?_, by simp [hp]⟩
    rw [List.append_assoc]
    conv => lhs; rw [← List.take_append_drop pos input]
    congr 1
    conv => lhs; rw [← List.take_append_drop text.length (input.drop pos)]
    rw [h]
  · intro ⟨pre, post, h, hl⟩
    subst h; subst hl
    simp

/-- **Literal match.** The recognizer of a string terminal matches at `pos` iff
its text occurs there literally. -/
theorem C19_literal_match (text input : List Nat) (pos : Nat) (hp : pos ≤ input.length) :
    strMatch false text input pos = true ↔ OccursAt text input pos := by
  simp only [strMatch, Bool.false_eq_true, if_false, beq_iff_eq]
  exact take_drop_eq_iff text input pos hp

/-- Under `ignore_case` it matches iff the slice equals the text up to case. -/
theorem C19_literal_match_ignore_case (text input : List Nat) (pos : Nat) :
    strMatch true text input pos = true ↔
      ((input.drop pos).take text.length).map lower = text.map lower := by
  simp [strMatch]

/-! ### Unescape chains -/

/-- Replace every (non-overlapping, leftmost) occurrence of `pat` by `rep`;
fuel = length of the input. -/
def replaceAll (pat rep : List Char) : Nat → List Char → List Char
  | 0, s => s
  | _, [] => []
  | fuel + 1, c :: cs =>
    if pat ≠ [] ∧ pat.isPrefixOf (c :: cs) then rep ++ replaceAll pat rep fuel ((c :: cs).drop pat.length)
    else c :: replaceAll pat rep fuel cs

def applyChain (chain : List (List Char × List Char)) (s : List Char) : List Char :=
  chain.foldl (fun acc pr => replaceAll pr.1 pr.2 acc.length acc) s

theorem isPrefixOf_head {pat s : List Char} {c : Char} (hp : pat.head? = some c) (h : pat.isPrefixOf s = true) :
    s.head? = some c := by
  cases pat with
  | nil => simp at hp
  | cons p ps =>
    cases s with
    | nil => simp [List.isPrefixOf] at h
    | cons x xs =>
      simp only [List.isPrefixOf, Bool.and_eq_true, beq_iff_eq] at h
      simp only [List.head?_cons, Option.some.injEq] at hp ⊢
      rw [← h.1, hp]

theorem replaceAll_id (pat rep : List Char) (c0 : Char) (hp : pat.head? = some c0) :
    ∀ (fuel : Nat) (s : List Char), c0 ∉ s → replaceAll pat rep fuel s = s := by
  intro fuel
  induction fuel with
  | zero => intro s _; rfl
  | succ f ih =>
    intro s hs
    cases s with
    | nil => rfl
    | cons c cs =>
      simp only [replaceAll]
      split
      · rename_i hcond
        have := isPrefixOf_head hp hcond.2
        simp only [List.head?_cons, Option.some.injEq] at this
        exact absurd (by simp [this]) hs
      · rw [ih cs (fun h => hs (by simp [h]))]

/-- **Unescape identity.** A text without a backslash is unchanged by any chain
whose patterns all start with a backslash. -/
theorem C19_unescape_identity (chain : List (List Char × List Char))
    (hc : ∀ pr ∈ chain, pr.1.head? = some '\\') (s : List Char) (hs : '\\' ∉ s) :
    applyChain chain s = s := by
  unfold applyChain
  induction chain generalizing s with
  | nil => rfl
  | cons pr rest ih =>
    simp only [List.foldl_cons]
    rw [replaceAll_id pr.1 pr.2 '\\' (hc pr (by simp)) _ s hs]
    exact ih (fun p hp => hc p (by simp [hp])) s hs

/-- The chains regenerated from the source have only patterns that start with a
backslash. -/
theorem C19_chain_patterns :
    (∀ pr ∈ Src.strTermChain, pr.1.toList.head? = some '\\') ∧
    (∀ pr ∈ Src.recognizerStrChain, pr.1.toList.head? = some '\\') := by
  decide

example : strMatch false [97, 98] [120, 97, 98, 121] 1 = true := by decide
example : strMatch true [97, 66] [65, 98] 0 = true := by decide

end Pg

/-!
# C20 — a grammar split over imported files means the flattened grammar

Model of the file registry (`PGFileImport.load_pgfile`, `Grammar.imported_files`,
`parglare/grammar.py`): files are loaded depth-first in import order and a file
already in the registry is not loaded again. Proved for every import graph
(chains, diamonds, cycles, self-imports): no file is loaded twice
(`C20_each_file_once`), everything already registered stays registered, and every
file directly imported by a loaded file is loaded too when the fuel suffices
(`C20_loaded_contains_start`). That symbol resolution over the loaded files
equals the flattened single-file grammar is the differential leg.
-/
namespace Pg

/-- Depth-first loading with a registry. `imports f` are the files imported by
`f`, in order. -/
def loadDfs (imports : Nat → List Nat) : Nat → List Nat → List Nat → List Nat
  | 0, _, reg => reg
  | _ + 1, [], reg => reg
  | fuel + 1, f :: rest, reg =>
    if reg.contains f then loadDfs imports fuel rest reg
    else loadDfs imports fuel (imports f ++ rest) (reg ++ [f])

/-- Each file contributes once, however many paths lead to it. -/
theorem C20_each_file_once (imports : Nat → List Nat) :
    ∀ (fuel : Nat) (todo reg : List Nat), reg.Nodup → (loadDfs imports fuel todo reg).Nodup := by
  intro fuel
  induction fuel with
  | zero => intro todo reg h; simpa [loadDfs] using h
  | succ f ih =>
    intro todo reg h
    cases todo with
    | nil => simpa [loadDfs] using h
    | cons x rest =>
      simp only [loadDfs]
      split
      · exact ih rest reg h
      · rename_i hx
        apply ih
        rw [List.nodup_append]
        refine ⟨h, by simp, ?_⟩
        intro a ha b hb
        simp only [List.mem_singleton] at hb
        subst hb
        intro hab
        subst hab
        exact hx (by simpa using ha)

/-- The registry only grows. -/
theorem C20_registry_grows (imports : Nat → List Nat) :
    ∀ (fuel : Nat) (todo reg : List Nat), ∀ x ∈ reg, x ∈ loadDfs imports fuel todo reg := by
  intro fuel
  induction fuel with
  | zero => intro todo reg x h; simpa [loadDfs] using h
  | succ f ih =>
    intro todo reg x h
    cases todo with
    | nil => simpa [loadDfs] using h
    | cons y rest =>
      simp only [loadDfs]
      split
      · exact ih rest reg x h
      · exact ih _ _ x (by simp [h])

/-- The root is loaded. -/
theorem C20_loaded_contains_start (imports : Nat → List Nat) (fuel root : Nat) :
    root ∈ loadDfs imports (fuel + 1) [root] [] := by
  simp only [loadDfs, List.contains_nil, Bool.false_eq_true, if_false, List.nil_append, List.append_nil]
  exact C20_registry_grows imports fuel _ [root] root (by simp)

/-- Non-vacuity: a diamond with a back edge (cycle). 0 → 1, 2; 1 → 3; 2 → 3; 3 → 0. -/
example : loadDfs (fun f => if f = 0 then [1, 2] else if f = 1 then [3] else if f = 2 then [3]
    else if f = 3 then [0] else []) 20 [0] [] = [0, 1, 3, 2] := by decide

end Pg

/-
Spec layer: context-free grammars, abstract inputs (text seen through a match
oracle and a layout-skipping function), parse trees and what it means for a
tree to be a derivation tree of (a span of) the input.

No imports outside core Lean: this file is linked into the `pgmodel` driver.
-/
namespace Pg

/-- Grammar symbols. Nonterminals and terminals are numbered separately.
Terminal `0` is reserved for `STOP`. -/
inductive Sym where
  | nt : Nat → Sym
  | t  : Nat → Sym
deriving DecidableEq, Repr, Inhabited

/-- The index of the STOP pseudo-terminal. -/
def STOP : Nat := 0

structure Prod where
  lhs : Nat
  rhs : List Sym
deriving DecidableEq, Repr, Inhabited

/-- A grammar: productions by id (production 0 is parglare's augmented
production `S' → start STOP`; it never occurs in trees) and the start
nonterminal. `EMPTY` never occurs in a right-hand side (parglare's
`ProductionRHS` hides it): an empty production has `rhs = []`. -/
structure Grammar where
  prods : List Prod
  start : Nat
deriving Repr, Inhabited

def Grammar.prod? (g : Grammar) (p : Nat) : Option Prod := g.prods[p]?

/-- Abstract input. `len` is the input length; `skip p` is the position reached
from `p` after skipping layout (whitespace or the LAYOUT sub-parser);
`mlen t p = some l` says that the recognizer of terminal `t` matches `l`
characters at position `p`. Theorems quantify over all `Input`s, that is over
all texts and all recognizer behaviours. -/
structure Input where
  len  : Nat
  skip : Nat → Nat
  mlen : Nat → Nat → Option Nat

/-- A parse tree. Leaves are token edges `(terminal, start, end)`; interior
nodes carry the production id, the span recorded by the parser and the
children. -/
inductive Tree where
  | leaf (term : Nat) (s e : Nat) : Tree
  | node (prod : Nat) (s e : Nat) (cs : List Tree) : Tree
deriving Repr, Inhabited

/-- A token edge as it appears in a yield. -/
structure Leaf where
  term : Nat
  s : Nat
  e : Nat
deriving DecidableEq, Repr, Inhabited

mutual
  def Tree.yield : Tree → List Leaf
    | .leaf t s e => [⟨t, s, e⟩]
    | .node _ _ _ cs => Tree.yieldL cs
  def Tree.yieldL : List Tree → List Leaf
    | [] => []
    | c :: cs => c.yield ++ Tree.yieldL cs
end

/-- The grammar symbol a tree is rooted in. -/
def Tree.sym (g : Grammar) : Tree → Option Sym
  | .leaf t _ _ => some (.t t)
  | .node p _ _ _ => (g.prod? p).map (fun pr => Sym.nt pr.lhs)

def Tree.start : Tree → Nat
  | .leaf _ s _ => s
  | .node _ s _ _ => s

def Tree.stop : Tree → Nat
  | .leaf _ _ e => e
  | .node _ _ e _ => e

mutual
  /-- Structural validity: every interior node applies one production of the
  grammar to its children, in order. (Executable checker.) -/
  def Tree.valid (g : Grammar) : Tree → Bool
    | .leaf _ _ _ => true
    | .node p _ _ cs =>
      match g.prod? p with
      | none => false
      | some pr => Tree.symsAre g cs pr.rhs && Tree.validL g cs
  def Tree.validL (g : Grammar) : List Tree → Bool
    | [] => true
    | c :: cs => c.valid g && Tree.validL g cs
  /-- The children are rooted, in order, in exactly the symbols `rhs`. -/
  def Tree.symsAre (g : Grammar) : List Tree → List Sym → Bool
    | [], [] => true
    | c :: cs, X :: Xs => (c.sym g == some X) && Tree.symsAre g cs Xs
    | _, _ => false
end

/-- Reading token edges left to right from raw position `p`: every leaf starts
where layout skipping from the previous end arrives, its recognizer matches
there with exactly the leaf's length, and the length is positive. Returns the
raw end position (end of the last token, or `p` itself for an empty yield). -/
def chain (inp : Input) : Nat → List Leaf → Option Nat
  | p, [] => some p
  | p, l :: ls =>
    if l.s = inp.skip p ∧ l.s < l.e ∧ inp.mlen l.term l.s = some (l.e - l.s)
    then chain inp l.e ls else none

/-! ### Declarative meaning -/

/-- `DerivesSeq g inp Xs i j ts`: the trees `ts` are derivation trees of the
symbols `Xs`, in order, over the token edges of `inp` between raw positions
`i` and `j` (a raw position is `0` or the end of a token; a token starts where
layout skipping from the previous raw position arrives). Node spans are not
constrained here (they are the subject of the position property C08). -/
inductive DerivesSeq (g : Grammar) (inp : Input) : List Sym → Nat → Nat → List Tree → Prop where
  | nil (i : Nat) : DerivesSeq g inp [] i i []
  | tok (t i l j : Nat) (Xs : List Sym) (ts : List Tree)
      (h : inp.mlen t (inp.skip i) = some l) (hl : 0 < l)
      (rest : DerivesSeq g inp Xs (inp.skip i + l) j ts) :
      DerivesSeq g inp (.t t :: Xs) i j (.leaf t (inp.skip i) (inp.skip i + l) :: ts)
  | prod (p : Nat) (pr : Prod) (i k j s e : Nat) (cs : List Tree) (Xs : List Sym) (ts : List Tree)
      (hp : g.prod? p = some pr) (hcs : DerivesSeq g inp pr.rhs i k cs)
      (rest : DerivesSeq g inp Xs k j ts) :
      DerivesSeq g inp (.nt pr.lhs :: Xs) i j (.node p s e cs :: ts)

/-- `t` is a derivation tree of symbol `X` between raw positions `i` and `j`:
its root is `X`, every interior node applies one production to its children in
order, and its leaves read left to right are token edges of the input. -/
def Derives (g : Grammar) (inp : Input) (X : Sym) (i j : Nat) (t : Tree) : Prop :=
  DerivesSeq g inp [X] i j [t]

/-- `t` is a derivation tree of the whole input: rooted in the start symbol,
reading all tokens, only layout left after the last one. -/
def IsParseOf (g : Grammar) (inp : Input) (t : Tree) : Prop :=
  ∃ e, Derives g inp (.nt g.start) 0 e t ∧ inp.skip e = inp.len

/-- `t` derives a prefix of the input ending at a token boundary. -/
def IsPrefixParseOf (g : Grammar) (inp : Input) (t : Tree) : Prop :=
  ∃ e, Derives g inp (.nt g.start) 0 e t

/-- The input is a sentence of the grammar. -/
def Sentence (g : Grammar) (inp : Input) : Prop := ∃ t, IsParseOf g inp t

/-- Executable counterpart of `Derives`. -/
def Tree.derivesB (g : Grammar) (inp : Input) (X : Sym) (i j : Nat) (t : Tree) : Bool :=
  t.valid g && (t.sym g == some X) && (chain inp i t.yield == some j)

/-- Executable counterpart of `DerivesSeq`. -/
def Tree.derivesSeqB (g : Grammar) (inp : Input) (Xs : List Sym) (i j : Nat) (ts : List Tree) : Bool :=
  Tree.validL g ts && Tree.symsAre g ts Xs && (chain inp i (Tree.yieldL ts) == some j)

end Pg

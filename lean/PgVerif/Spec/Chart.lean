import PgVerif.Model.Lex
/-!
Spec layer: a saturation recognizer for arbitrary context-free grammars
(ambiguous, nullable, cyclic) over the token lattice of an input. It is the
oracle for "is a sentence", "which spans derive which symbol" and, through
`sppfAlts`, "which packed alternatives does the complete SPPF have".
-/
namespace Pg

/-- A chart fact: nonterminal `A` derives the token path between raw positions
`i` and `j`. -/
abbrev Fact := Nat × Nat × Nat

/-- Raw end positions reachable by one symbol from raw position `i`. -/
def symEnds (inp : Input) (ch : List Fact) (X : Sym) (i : Nat) : List Nat :=
  match X with
  | .t t =>
    (match inp.matchAt t (inp.skip i) with
     | some l => [inp.skip i + l]
     | none => [])
  | .nt A => ch.filterMap (fun f => if f.1 = A ∧ f.2.1 = i then some f.2.2 else none)

/-- Raw end positions reachable by a sequence of symbols. -/
def seqEnds (inp : Input) (ch : List Fact) : List Sym → Nat → List Nat
  | [], i => [i]
  | X :: Xs, i => (symEnds inp ch X i).flatMap (seqEnds inp ch Xs)

/-- All facts derivable in one round from the chart. -/
def roundFacts (g : Grammar) (inp : Input) (ch : List Fact) : List Fact :=
  g.prods.flatMap (fun pr =>
    (List.range (inp.len + 1)).flatMap (fun i =>
      (seqEnds inp ch pr.rhs i).map (fun j => (pr.lhs, i, j))))

def newFacts (g : Grammar) (inp : Input) (ch : List Fact) : List Fact :=
  ((roundFacts g inp ch).filter (fun f => !ch.contains f)).eraseDups

/-- Saturate; the flag says whether a fixpoint was reached within the fuel. -/
def saturate (g : Grammar) (inp : Input) : Nat → List Fact → List Fact × Bool
  | 0, ch => (ch, (newFacts g inp ch).isEmpty)
  | f + 1, ch =>
    let nf := newFacts g inp ch
    if nf.isEmpty then (ch, true) else saturate g inp f (ch ++ nf)

def chart (g : Grammar) (inp : Input) (fuel : Nat) : List Fact × Bool :=
  saturate g inp fuel []

/-- Raw end positions `j` such that the start symbol derives `0..j`. -/
def parseEnds (g : Grammar) (ch : List Fact) : List Nat :=
  ch.filterMap (fun f => if f.1 = g.start ∧ f.2.1 = 0 then some f.2.2 else none)

/-- `some b`: the chart saturated and `b` says whether the input is a sentence;
`none`: out of fuel. -/
def isSentence (g : Grammar) (inp : Input) (fuel : Nat) : Option Bool :=
  let (ch, closed) := chart g inp fuel
  if closed then some ((parseEnds g ch).any (fun j => inp.skip j == inp.len)) else none

/-- Is some prefix (ending at a token boundary) a sentence? -/
def isPrefixSentence (g : Grammar) (inp : Input) (fuel : Nat) : Option Bool :=
  let (ch, closed) := chart g inp fuel
  if closed then some (!(parseEnds g ch).isEmpty) else none

/-- The inputs the drivers are run on: matches stay inside the text, layout
skipping stays inside the text, STOP has no recognizer. -/
structure InputOK (inp : Input) : Prop where
  mlen_le : ∀ t p l, inp.mlen t p = some l → p + l ≤ inp.len
  skip_le : ∀ p, p ≤ inp.len → inp.skip p ≤ inp.len
  stop : ∀ p, inp.mlen STOP p = none

end Pg

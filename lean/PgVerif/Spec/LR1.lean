import PgVerif.Model.TableGen
/-!
Spec layer: the canonical LR(1) automaton and the LALR(1) lookahead sets derived
from it (union over the canonical states with the same core), and the decidable
check that an implementation table is *faithful*: along every common symbol path
from the start state it offers at least the canonical LR(1) actions, and (for
LALR tables) no reduction outside the LALR(1) lookahead of the completed item.
Executable spec (no theorem about it yet).
-/
namespace Pg

structure CState where
  kernel : List Item
  items  : List Item
  trans  : List (Sym × Nat)
deriving Repr, Inhabited

def kernelEq (a b : List Item) : Bool :=
  a.length == b.length && a.all (fun x => b.any (fun y => x == y))

def canonDiscover (g : GGrammar) (fs : List TSet) :
    Nat → List CState → List (Nat) → Option (List CState)
  | 0, _, _ => none
  | _, sts, [] => some sts
  | fuel + 1, sts, sid :: queue =>
    let st := sts.getD sid default
    let items := closureOf g true fs st.kernel
    let groups := perNextSymbol g items
    let (sts, queue, trans) := groups.foldl (fun (acc : List CState × List Nat × List (Sym × Nat)) e =>
      let (sts, queue, trans) := acc
      let (X, its, _) := e
      if X == Sym.t STOP then acc else
      let inc := its.map (fun it => ({ it with dot := it.dot + 1 } : Item))
      match sts.findIdx? (fun s => kernelEq s.kernel inc) with
      | some j => (sts, queue, trans ++ [(X, j)])
      | none => (sts ++ [{ kernel := inc, items := [], trans := [] }], queue ++ [sts.length], trans ++ [(X, sts.length)]))
      (sts, queue, [])
    let sts := sts.set sid { st with items := items, trans := trans }
    canonDiscover g fs fuel sts queue

/-- The canonical LR(1) automaton for start production `sp`. -/
def canonicalLR1 (g : GGrammar) (sp : Nat) (fuel : Nat) : Option (List CState) :=
  let fs := firstSets g
  let startSym := (g.prod sp).lhs
  let g' : GGrammar := { g with prods := g.prods.set 0 { (g.prod 0) with rhs := [Sym.nt startSym, Sym.t STOP] } }
  canonDiscover g' fs fuel [{ kernel := [⟨0, 0, 0⟩], items := [], trans := [] }] [0]

def coreOf (s : CState) : List (Nat × Nat) := s.kernel.map (fun it => (it.prod, it.dot))
def coreEq (a b : List (Nat × Nat)) : Bool := a.length == b.length && a.all (fun x => b.contains x)

/-- LALR(1) lookahead of completed production `p` in the core of `c`. -/
def lalrLookahead (g : GGrammar) (cs : List CState) (c : CState) (p : Nat) : TSet :=
  let core := coreOf c
  cs.foldl (fun acc s =>
    if coreEq (coreOf s) core then
      s.items.foldl (fun acc it => if it.prod == p && atEnd g it then acc.union it.follow else acc) acc
    else acc) 0

inductive Faith where
  | ok
  | missing (s a kind p : Nat)
  | extra (s a p : Nat)
deriving Repr, Inhabited

/-- Lockstep exploration of (implementation state, canonical state). -/
def faithfulLoop (g : GGrammar) (T : Table) (cs : List CState) (lalr : Bool) (fo : List TSet) :
    Nat → List (Nat × Nat) → List (Nat × Nat) → Option Faith
  | 0, _, _ => none
  | _, _, [] => some .ok
  | fuel + 1, seen, (s, c) :: todo =>
    if seen.contains (s, c) then faithfulLoop g T cs lalr fo fuel seen todo else
    let cst := cs.getD c default
    -- canonical reductions must be offered
    let missRed := cst.items.findSome? (fun it =>
      if atEnd g it && it.prod != 0 then
        (it.follow.toList (g.nterm + 1)).findSome? (fun a =>
          if (T.actions s a).contains (Action.reduce it.prod) then none else some (Faith.missing s a 1 it.prod))
      else none)
    match missRed with
    | some f => some f
    | none =>
    -- accept
    let missAcc := cst.items.findSome? (fun it =>
      if it.prod == 0 && it.dot == 1 then
        (if (T.actions s STOP).contains Action.accept then none else some (Faith.missing s STOP 2 0))
      else none)
    match missAcc with
    | some f => some f
    | none =>
    -- transitions
    let step := cst.trans.foldl (fun (acc : Option Faith × List (Nat × Nat)) (e : Sym × Nat) =>
      match acc.1 with
      | some f => (some f, acc.2)
      | none =>
        match e.1 with
        | .t a =>
          (match (T.actions s a).findSome? (fun x => match x with | .shift t => some t | _ => none) with
           | some t => (none, acc.2 ++ [(t, e.2)])
           | none => (some (Faith.missing s a 0 0), acc.2))
        | .nt A =>
          (match T.goto s A with
           | some t => (none, acc.2 ++ [(t, e.2)])
           | none => (some (Faith.missing s A 3 0), acc.2))) (none, [])
    match step.1 with
    | some f => some f
    | none =>
    -- upper bound
    let extra := (T.cells s).findSome? (fun cell =>
      cell.2.findSome? (fun a => match a with
        | .reduce p =>
          let allowed := if lalr then lalrLookahead g cs cst p else fo.getD (g.prod p).lhs 0
          if allowed.has cell.1 then none else some (Faith.extra s cell.1 p)
        | _ => none))
    match extra with
    | some f => some f
    | none => faithfulLoop g T cs lalr fo fuel ((s, c) :: seen) (todo ++ step.2)

def faithful (g : GGrammar) (T : Table) (sp : Nat) (lalr : Bool) (fuel : Nat) : Option Faith :=
  match canonicalLR1 g sp fuel with
  | none => none
  | some cs =>
    let fs := firstSets g
    let startSym := (g.prod sp).lhs
    let g' : GGrammar := { g with prods := g.prods.set 0 { (g.prod 0) with rhs := [Sym.nt startSym, Sym.t STOP] } }
    faithfulLoop g' T cs lalr (followSets g' fs) (fuel * 16) [] [(0, 0)]

end Pg

import PgVerif.Model.Table
/-!
A completeness validator for LR tables, in the style of Jourdan, Pottier and
Leroy ("Validating LR(1) parsers"): given a table, the item sets its states
stand for (production, dot, lookahead terminals) and FIRST data, a handful of
local, decidable conditions — FIRST data closed under the grammar, the start
item present, every item set closed, every transition and reduction an item
calls for present in the table — imply that **every** sentence has an accepting
run of the nondeterministic LR automaton over the table
(`Proofs/LRComplete.lean`). The conditions are evaluated on the tables and item
sets of the implementation; nothing about how they were built is assumed.
-/
namespace Pg
namespace LRV

structure VItem where
  prod : Nat
  dot  : Nat
  la   : List Nat
deriving DecidableEq, Repr, Inhabited

/-- FIRST data: `fst A` = terminals that may begin what `A` derives, `nul A` =
`A` may derive the empty string. Only closedness is required of them (so any
over-approximation is acceptable). -/
structure FirstData where
  fst : Nat → List Nat
  nul : Nat → Bool

def firstSeq (F : FirstData) : List Sym → List Nat → List Nat
  | [], la => la
  | .t a :: _, _ => [a]
  | .nt B :: β, la => F.fst B ++ (if F.nul B then firstSeq F β la else [])

def nullableSeq (F : FirstData) : List Sym → Bool
  | [] => true
  | .t _ :: _ => false
  | .nt B :: β => F.nul B && nullableSeq F β

def subsetB (l1 l2 : List Nat) : Bool := l1.all (fun a => l2.contains a)

def FirstData.closed (F : FirstData) (g : Grammar) : Bool :=
  g.prods.all (fun pr =>
    subsetB (firstSeq F pr.rhs []) (F.fst pr.lhs) && (!nullableSeq F pr.rhs || F.nul pr.lhs))

/-- The item set holds `(p, d, la')` with `la ⊆ la'`. -/
def hasItem (items : List VItem) (p d : Nat) (la : List Nat) : Bool :=
  items.any (fun it => it.prod == p && it.dot == d && subsetB la it.la)

/-- What one item of state `s` demands of its item set and of the table. -/
def itemOK (g : Grammar) (T : Table) (I : Nat → List VItem) (F : FirstData) (s : Nat) (it : VItem) : Bool :=
  match g.prod? it.prod with
  | none => false
  | some pr =>
    match pr.rhs[it.dot]? with
    | none =>
      -- complete item: the reduction is offered on every lookahead
      it.la.all (fun a => (T.actions s a).contains (.reduce it.prod))
    | some (.nt B) =>
      -- closure: every production of `B` with the lookaheads FIRST(β la)
      (List.range g.prods.length).all (fun q =>
        match g.prod? q with
        | none => true
        | some pq => pq.lhs != B || hasItem (I s) q 0 (firstSeq F (pr.rhs.drop (it.dot + 1)) it.la)) &&
      -- goto on `B` into a state holding the advanced item
      (match T.goto s B with
       | none => false
       | some s' => decide (s' < T.n) && hasItem (I s') it.prod (it.dot + 1) it.la)
    | some (.t a) =>
      if a = STOP then (T.actions s STOP).contains .accept
      else (T.actions s a).any (fun act =>
        match act with
        | .shift s' => decide (s' < T.n) && hasItem (I s') it.prod (it.dot + 1) it.la
        | _ => false)

/-- The validator. -/
def lrComplete (g : Grammar) (T : Table) (I : Nat → List VItem) (F : FirstData) : Bool :=
  F.closed g && decide (0 < T.n) &&
  (match g.prod? 0 with
   | some pr0 => pr0.rhs == [.nt g.start, .t STOP]
   | none => false) &&
  hasItem (I 0) 0 0 [] &&
  (List.range T.n).all (fun s => (I s).all (itemOK g T I F s))

/-! ### Soundness of the item sets (correct-prefix property)

The converse check: every item of a state is *justified* — a kernel item (dot > 0) by the item
before the dot in **every** predecessor state, an initial item (dot = 0) by the LR(0) closure of the
state's kernel (of the start item in state 0). With it, the symbols along any path of the automaton
begin a sentential form (`Proofs/LRViable.lean`). -/

/-- LR(0) closure of a list of (production, dot) pairs, `fuel` rounds. -/
def closeRound (g : Grammar) (its : List (Nat × Nat)) : List (Nat × Nat) :=
  its ++ its.flatMap (fun (pd : Nat × Nat) =>
    match g.prod? pd.1 with
    | none => []
    | some pr =>
      match pr.rhs[pd.2]? with
      | some (.nt B) =>
        (List.range g.prods.length).filterMap (fun q =>
          match g.prod? q with
          | some pq => if pq.lhs = B then some (q, 0) else none
          | none => none)
      | _ => [])

def closeIter (g : Grammar) : Nat → List (Nat × Nat) → List (Nat × Nat)
  | 0, its => its
  | n + 1, its => closeIter g n (closeRound g its).eraseDups

def itemSoundOK (g : Grammar) (T : Table) (I : Nat → List VItem) (s : Nat) (it : VItem) : Bool :=
  match g.prod? it.prod with
  | none => false
  | some pr =>
    decide (it.dot ≤ pr.rhs.length) &&
    (if it.dot = 0 then
      let kernel := ((I s).filter (fun k => k.dot != 0)).map (fun k => (k.prod, k.dot)) ++
        (if s = 0 then [(0, 0)] else [])
      (closeIter g (g.prods.length + 1) kernel).contains (it.prod, 0)
    else
      decide (s ≠ 0) &&
      (List.range T.n).all (fun s0 => !T.edge s0 s ||
        (I s0).any (fun k => k.prod == it.prod && k.dot + 1 == it.dot &&
          pr.rhs[k.dot]? == some (T.sym s))))

/-- The item sets are sound. -/
def lrSound (g : Grammar) (T : Table) (I : Nat → List VItem) : Bool :=
  decide (0 < T.n) && (g.prod? 0).isSome &&
  (List.range T.n).all (fun s => !(I s).isEmpty && (I s).all (itemSoundOK g T I s))

end LRV
end Pg

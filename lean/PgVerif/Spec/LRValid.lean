import PgVerif.Model.Table
/-!
A completeness validator for LR tables, in the style of Jourdan, Pottier and
Leroy ("Validating LR(1) parsers"): given a table, the item sets its states
stand for (production, dot, lookahead terminals) and FIRST data, a handful of
local, decidable conditions — FIRST data closed under the grammar, the start
item present, every item set closed, every transition and reduction an item
calls for present in the table — imply that **every** sentence has an accepting
run of the nondeterministic LR automaton over the table
(`Proofs/LRComplete.lean`). The conditions are evaluated on the tables and item
sets of the implementation; nothing about how they were built is assumed.
-/
namespace Pg
namespace LRV

structure VItem where
  prod : Nat
  dot  : Nat
  la   : List Nat
deriving DecidableEq, Repr, Inhabited

/-- FIRST data: `fst A` = terminals that may begin what `A` derives, `nul A` =
`A` may derive the empty string. Only closedness is required of them (so any
over-approximation is acceptable). -/
structure FirstData where
  fst : Nat → List Nat
  nul : Nat → Bool

def firstSeq (F : FirstData) : List Sym → List Nat → List Nat
  | [], la => la
  | .t a :: _, _ => [a]
  | .nt B :: β, la => F.fst B ++ (if F.nul B then firstSeq F β la else [])

def nullableSeq (F : FirstData) : List Sym → Bool
  | [] => true
  | .t _ :: _ => false
  | .nt B :: β => F.nul B && nullableSeq F β

def subsetB (l1 l2 : List Nat) : Bool := l1.all (fun a => l2.contains a)

def FirstData.closed (F : FirstData) (g : Grammar) : Bool :=
  g.prods.all (fun pr =>
    subsetB (firstSeq F pr.rhs []) (F.fst pr.lhs) && (!nullableSeq F pr.rhs || F.nul pr.lhs))

/-- The item set holds `(p, d, la')` with `la ⊆ la'`. -/
def hasItem (items : List VItem) (p d : Nat) (la : List Nat) : Bool :=
  items.any (fun it => it.prod == p && it.dot == d && subsetB la it.la)

/-- What one item of state `s` demands of its item set and of the table. -/
def itemOK (g : Grammar) (T : Table) (I : Nat → List VItem) (F : FirstData) (s : Nat) (it : VItem) : Bool :=
  match g.prod? it.prod with
  | none => false
  | some pr =>
    match pr.rhs[it.dot]? with
    | none =>
      -- complete item: the reduction is offered on every lookahead
      it.la.all (fun a => (T.actions s a).contains (.reduce it.prod))
    | some (.nt B) =>
      -- closure: every production of `B` with the lookaheads FIRST(β la)
      (List.range g.prods.length).all (fun q =>
        match g.prod? q with
        | none => true
        | some pq => pq.lhs != B || hasItem (I s) q 0 (firstSeq F (pr.rhs.drop (it.dot + 1)) it.la)) &&
      -- goto on `B` into a state holding the advanced item
      (match T.goto s B with
       | none => false
       | some s' => decide (s' < T.n) && hasItem (I s') it.prod (it.dot + 1) it.la)
    | some (.t a) =>
      if a = STOP then (T.actions s STOP).contains .accept
      else (T.actions s a).any (fun act =>
        match act with
        | .shift s' => decide (s' < T.n) && hasItem (I s') it.prod (it.dot + 1) it.la
        | _ => false)

/-- The validator. -/
def lrComplete (g : Grammar) (T : Table) (I : Nat → List VItem) (F : FirstData) : Bool :=
  F.closed g && decide (0 < T.n) &&
  (match g.prod? 0 with
   | some pr0 => pr0.rhs == [.nt g.start, .t STOP]
   | none => false) &&
  hasItem (I 0) 0 0 [] &&
  (List.range T.n).all (fun s => (I s).all (itemOK g T I F s))

end LRV
end Pg

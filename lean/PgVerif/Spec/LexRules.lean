import PgVerif.Model.Lex
/-!
Spec layer: the documented lexical disambiguation order, as a function of the
*set* of candidates (expected terminals whose recognizers match at the
position), with no reference to any scanning order:
R1 candidates, R2 highest priority, R3 string/keyword recognizers over the
others, R4 longest match, R5 `prefer`.
-/
namespace Pg

/-- R1: the expected real terminals of state `s` matching at `p`. -/
def candidates (T : Table) (inp : Input) (s p : Nat) : List Tok :=
  ((T.cells s).map (·.1)).filterMap (fun a =>
    match inp.matchAt a p with
    | some l => some ⟨a, p, l⟩
    | none => none)

def maxBy (f : Tok → Nat) (l : List Tok) : Nat := l.foldl (fun m t => max m (f t)) 0

/-- R2–R5 on a candidate list. -/
def lexRules (T : Table) (strLike : Nat → Bool) (cands : List Tok) : List Tok :=
  let P := maxBy (fun t => T.prior t.term) cands
  let c2 := cands.filter (fun t => T.prior t.term == P)
  let c3 := if c2.any (fun t => strLike t.term) then c2.filter (fun t => strLike t.term) else c2
  let L := maxBy (·.len) c3
  let c4 := c3.filter (fun t => t.len == L)
  if c4.any (fun t => T.prefer t.term) then c4.filter (fun t => T.prefer t.term) else c4

/-- With lexical disambiguation off: every candidate of the highest matching priority. -/
def topPriority (T : Table) (cands : List Tok) : List Tok :=
  let P := maxBy (fun t => T.prior t.term) cands
  cands.filter (fun t => T.prior t.term == P)

end Pg

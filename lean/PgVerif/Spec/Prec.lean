/-!
Spec layer: the conventional operator-precedence parse. Expressions are
sequences of operands, binary operators (each with a priority and a left/right
associativity) and parentheses. `climb` is precedence climbing; `Conventional`
is the declarative shape condition: higher priority binds tighter, equal
priority groups left or right as declared.
-/
namespace Pg

inductive ETok where
  | num
  | op (k : Nat)
  | lpar
  | rpar
deriving DecidableEq, Repr, Inhabited

inductive ETree where
  | num
  | bin (k : Nat) (l r : ETree)
  | paren (t : ETree)
deriving DecidableEq, Repr, Inhabited

structure OpTable where
  prio  : Nat → Nat
  left  : Nat → Bool       -- true = left associative, false = right

/-- Precedence climbing. `parseExpr minPrio` parses an operand and then absorbs
operators of priority at least `minPrio`. Fuel-indexed; returns the tree and the
remaining tokens. -/
def climbExpr (ot : OpTable) : Nat → Nat → List ETok → Option (ETree × List ETok)
  | 0, _, _ => none
  | fuel + 1, minPrio, toks =>
    let atom : Option (ETree × List ETok) :=
      match toks with
      | .num :: rest => some (.num, rest)
      | .lpar :: rest =>
        (match climbExpr ot fuel 0 rest with
         | some (t, .rpar :: rest') => some (.paren t, rest')
         | _ => none)
      | _ => none
    match atom with
    | none => none
    | some (lhs, rest) => climbLoop ot fuel minPrio lhs rest
where
  climbLoop (ot : OpTable) : Nat → Nat → ETree → List ETok → Option (ETree × List ETok)
    | 0, _, _, _ => none
    | fuel + 1, minPrio, lhs, toks =>
      match toks with
      | .op k :: rest =>
        if ot.prio k < minPrio then some (lhs, toks)
        else
          let next := if ot.left k then ot.prio k + 1 else ot.prio k
          match climbExpr ot fuel next rest with
          | none => none
          | some (rhs, rest') => climbLoop ot fuel minPrio (.bin k lhs rhs) rest'
      | _ => some (lhs, toks)

def climb (ot : OpTable) (toks : List ETok) : Option ETree :=
  match climbExpr ot (4 * toks.length + 4) 0 toks with
  | some (t, []) => some t
  | _ => none

/-- The yield of an expression tree. -/
def ETree.toks : ETree → List ETok
  | .num => [.num]
  | .bin k l r => l.toks ++ [.op k] ++ r.toks
  | .paren t => [.lpar] ++ t.toks ++ [.rpar]

/-- The conventional shape: no node has a left child binding looser (or equally
when right associative), and symmetrically on the right. -/
def ETree.conventional (ot : OpTable) : ETree → Bool
  | .num => true
  | .paren t => t.conventional ot
  | .bin k l r =>
    l.conventional ot && r.conventional ot &&
    (match l with
     | .bin kl _ _ => ot.prio kl > ot.prio k || (ot.prio kl == ot.prio k && ot.left k)
     | _ => true) &&
    (match r with
     | .bin kr _ _ => ot.prio kr > ot.prio k || (ot.prio kr == ot.prio k && !ot.left k)
     | _ => true)

end Pg

import PgVerif.Spec.Chart
/-!
Spec layer: the packed alternatives of the *complete* shared packed parse forest
of an input, computed from the saturated chart: top-down from the parses of the
whole input, every production of a useful `(A, i, j)` with every split of the
span into derivable pieces.
-/
namespace Pg

/-- All ways to split `i..j` along `Xs` into derivable pieces; a split is the
list of the pieces' end positions. -/
def splits (inp : Input) (ch : List Fact) : List Sym → Nat → Nat → List (List Nat)
  | [], i, j => if i = j then [[]] else []
  | X :: Xs, i, j => (symEnds inp ch X i).eraseDups.flatMap (fun k => (splits inp ch Xs k j).map (k :: ·))

/-- A packed alternative: nonterminal span `(A, i, j)`, production id and split. -/
structure PAlt where
  A : Nat
  i : Nat
  j : Nat
  p : Nat
  ks : List Nat
deriving DecidableEq, Repr, Inhabited

def enumProds (g : Grammar) : List (Nat × Prod) := enumFromP 0 g.prods
where enumFromP : Nat → List Prod → List (Nat × Prod)
  | _, [] => []
  | k, x :: xs => (k, x) :: enumFromP (k + 1) xs

/-- Alternatives of one useful fact. -/
def altsOf (g : Grammar) (inp : Input) (ch : List Fact) (f : Fact) : List PAlt :=
  (enumProds g).flatMap (fun (p, pr) =>
    if pr.lhs = f.1 ∧ p ≠ 0 then
      (splits inp ch pr.rhs f.2.1 f.2.2).map (fun ks => ⟨f.1, f.2.1, f.2.2, p, ks⟩)
    else [])

/-- The nonterminal children facts of an alternative. -/
def childFacts (g : Grammar) (a : PAlt) : List Fact :=
  match g.prod? a.p with
  | none => []
  | some pr => go pr.rhs a.i a.ks
where go : List Sym → Nat → List Nat → List Fact
  | .nt B :: Xs, i, k :: ks => (B, i, k) :: go Xs k ks
  | .t _ :: Xs, _, k :: ks => go Xs k ks
  | _, _, _ => []

/-- Top-down closure of the useful facts. -/
def usefulIter (g : Grammar) (inp : Input) (ch : List Fact) : Nat → List Fact → List Fact → List Fact
  | 0, done, _ => done
  | _ + 1, done, [] => done
  | fuel + 1, done, f :: todo =>
    if done.contains f then usefulIter g inp ch fuel done todo
    else
      let kids := (altsOf g inp ch f).flatMap (childFacts g)
      usefulIter g inp ch fuel (f :: done) (kids ++ todo)

/-- The top-down closure is complete: it holds the roots and the children of every
alternative of every fact it holds (false only if `usefulIter` ran out of fuel). -/
def usefulClosed (g : Grammar) (inp : Input) (ch : List Fact) (useful roots : List Fact) : Bool :=
  roots.all (fun r => useful.contains r) &&
  useful.all (fun f => ((altsOf g inp ch f).flatMap (childFacts g)).all (fun k => useful.contains k))

/-- The packed alternatives of the complete SPPF of the whole input (`consume`)
or of all its sentence prefixes. -/
def sppfAlts (g : Grammar) (inp : Input) (fuel : Nat) (consume : Bool) : Option (List PAlt) :=
  let (ch, closed) := chart g inp fuel
  if !closed then none else
  let roots := ((parseEnds g ch).eraseDups.filter (fun j => !consume || inp.skip j == inp.len)).map
    (fun j => (g.start, 0, j))
  let useful := usefulIter g inp ch (fuel * fuel * 16 + 1000) [] roots
  if !usefulClosed g inp ch useful roots then none else
  some (useful.flatMap (altsOf g inp ch))

end Pg

import PgVerif.Spec.Chart
/-!
Spec layer: viable token prefixes. `P(A, i, j)` says that nonterminal `A`
derives a string that *begins* with the token path `i..j` (`j > i`); the
remainder is arbitrary, which is always possible when every nonterminal is
productive (the properties' standing assumption). A raw position `j` is a
viable end iff the start symbol has such a fact from 0 (or `j = 0`).
-/
namespace Pg

/-- Raw ends reachable by a *prefix* of what one symbol derives (a complete
derivation is also a prefix; a token is atomic). -/
def symPrefixEnds (inp : Input) (ch pch : List Fact) (X : Sym) (i : Nat) : List Nat :=
  match X with
  | .t _ => symEnds inp ch X i
  | .nt A => symEnds inp ch X i ++
      pch.filterMap (fun f => if f.1 = A ∧ f.2.1 = i then some f.2.2 else none)

/-- Raw ends `j > i`-or-equal reachable by a prefix of what a sequence derives:
some symbols derived completely, the next one as a prefix, the rest dropped. -/
def seqPrefixEnds (inp : Input) (ch pch : List Fact) : List Sym → Nat → List Nat
  | [], _ => []
  | X :: Xs, i => symPrefixEnds inp ch pch X i ++
      (symEnds inp ch X i).flatMap (seqPrefixEnds inp ch pch Xs)

def prefixRound (g : Grammar) (inp : Input) (ch pch : List Fact) : List Fact :=
  g.prods.flatMap (fun pr =>
    (List.range (inp.len + 1)).flatMap (fun i =>
      ((seqPrefixEnds inp ch pch pr.rhs i).filter (fun j => decide (i < j))).map (fun j => (pr.lhs, i, j))))

def prefixSaturate (g : Grammar) (inp : Input) (ch : List Fact) : Nat → List Fact → List Fact × Bool
  | 0, pch => (pch, false)
  | f + 1, pch =>
    let nf := ((prefixRound g inp ch pch).filter (fun x => !pch.contains x)).eraseDups
    if nf.isEmpty then (pch, true) else prefixSaturate g inp ch f (pch ++ nf)

/-- Viable raw ends of the input, ascending; `none` = out of fuel. -/
def viableEnds (g : Grammar) (inp : Input) (fuel : Nat) : Option (List Nat) :=
  let (ch, closed) := chart g inp fuel
  if !closed then none else
  let (pch, closed') := prefixSaturate g inp ch fuel []
  if !closed' then none else
  let ends := (symPrefixEnds inp ch pch (.nt g.start) 0).eraseDups
  some ((List.range (inp.len + 1)).filter (fun j => j == 0 || ends.contains j))

/-- The input cut after raw position `r` and extended by one hypothetical token
of terminal `t` right after the layout. -/
def Input.extendWith (inp : Input) (r t : Nat) : Input :=
  let p := inp.skip r
  { len := p + 1
    skip := fun q => if q ≤ r then min (inp.skip q) p else min q (p + 1)
    mlen := fun t' q => if q = p then (if t' = t then some 1 else none)
                        else if q + (inp.mlen t' q).getD 0 ≤ r then inp.mlen t' q else none }

/-- Terminals that can legally follow some viable token path ending at raw
position `r`. -/
def nextTerminals (g : Grammar) (inp : Input) (fuel : Nat) (r : Nat) (terms : List Nat) : Option (List Nat) :=
  terms.foldr (fun t acc =>
    match acc, viableEnds g (inp.extendWith r t) fuel with
    | some l, some ends => some (if ends.contains (inp.skip r + 1) then t :: l else l)
    | _, _ => none) (some [])

end Pg
